"""C05 — imports, re-exports and wildcards: contracts on wildcard exposure/expansion and the Alias proxies (clause-restricted)."""
from __future__ import annotations

import ast

import z3

from pyvc.api import *  # noqa: F403
from pyvc.values import *  # noqa: F403
from pyvc import models, loops
from specs.heap import Heap, OBJ_KINDS, ALL_KINDS
from contracts import C01 as _c01

LD = "_griffe.loader:GriffeLoader."
MD = "_griffe.models:"

TRUSTED_BASE = [
    "`from m import *` exposure rule (Python language reference 7.11): __all__ when defined, else public (non-underscore) names; submodules only if imported",
    "one arbitrary wildcard statement and one arbitrary exposed name per expansion (generic iteration); set_member / del_member / get_member by contract (C16)",
    "Alias proxies: the list of proxy properties is read from the real class body on every run; each is proved to return the final target's attribute",
    "visit_importfrom.wildcard_members_do_not_collide: str.replace is uninterpreted; two string facts are assumed for dotted module paths (no '/' and no '*' in "
    "them): s -> s.replace('.', '/') is injective and keeps a final '*', and (m + '.*').replace('.*', '') == m; relative_to_absolute by contract (C04) returns m + '.*' for a wildcard",
]
ASSUMPTIONS = [
    "not covered by proof: that the composition (load + expand_exports + expand_wildcards + resolve_aliases) equals what CPython's importer produces for a whole "
    "package -- decided by the bounded native tier (generated acyclic packages imported by CPython)",
]

# the wildcard-exposure decision table is shared with C01
contract("C05", "table.is_wildcard_exposed", [_c01.MIX + "is_wildcard_exposed"], replay="replay_packages")(_c01._table_contract("is_wildcard_exposed", _c01.T_wildcard, True))


@contract("C05", "_expand_wildcard.filter", [LD + "_expand_wildcard"], floor=3, replay="replay_packages")
def c_expand_wildcard(P):
    H = Heap(P)
    ld = SObj("GriffeLoader", {"modules_collection": H.collection("coll")}, ident=z3.Int("loader_id"))
    module = H.obj("module", ["Module"])
    P.opaque_hooks["_griffe.mixins:GetMembersMixin.get_member"] = lambda P_, a, k: module
    EXP = z3.Function("IS_WILDCARD_EXPOSED", IntS, BoolS)
    P.attr_hooks[("ObjectAliasMixin", "is_wildcard_exposed")] = lambda P_, o: SBool(EXP(o.ident))
    w = H.obj("wildcard", ["Alias"])
    w.fields["alias_lineno"], w.fields["alias_endlineno"] = P.fresh_int("wl"), P.fresh_int("wel")
    P.attr_hooks[("Alias", "wildcard")] = lambda P_, o: P_.getattr(o, "target_path")
    kind, res = outcome(P, lambda: call(P, LD + "_expand_wildcard", ld, w))
    P.prove("never_raises", kind == "ok", exc=str(res))
    if kind != "ok":
        return
    members = P.getattr(module, "members")
    i = z3.Int("i_member")
    P.assume(z3.And(i >= 0, i < zint(members.keys_seq.len)))
    m = members.get0(members.keys_seq.at(i))
    if isinstance(res, loops.SFilter):
        keep, val = res.pred_elt(i)
    elif isinstance(res, loops.SCat) and any(isinstance(p, tuple) and isinstance(p[0], loops.SFlat) for p in res.parts) and \
            all((isinstance(p, list) and not p) or (isinstance(p, tuple) and isinstance(p[0], loops.SFlat)) for p in res.parts):
        # the same filter written as an accumulating loop: what iteration i contributes
        flat, acc = next(p for p in res.parts if isinstance(p, tuple))
        items = flat.items_at(P, i)[acc]
        if len(items) > 1:
            P.prove("at_most_one_entry_per_member", False)
            return
        keep, val = (True, items[0]) if items else (False, None)
    else:
        raise Unsupported("expected a filter over the members of the imported module (comprehension or accumulating loop)")
    P.prove("kept_iff_exposed_to_wildcard_imports", zbool(keep) == EXP(m.ident))
    if val is None:
        P.cover("_expand_wildcard")
        return
    P.prove("element_is_member_with_the_statement_span", val[0] is m and val[1] is w.fields["alias_lineno"] and val[2] is w.fields["alias_endlineno"])
    P.cover("_expand_wildcard")


@contract("C05", "expand_wildcards.merge_rule", [LD + "expand_wildcards"], floor=5, replay="replay_packages", shard_bits=4)
def c_expand_wildcards(P):
    H = Heap(P)
    coll = H.collection("coll")
    ld = SObj("GriffeLoader", {"modules_collection": coll, "extensions": Opaque("lenient:extensions")}, ident=z3.Int("loader_id"))
    obj = H.obj("obj", ["Module"])
    i0 = z3.Int("wildcard_index")
    q = LD + "expand_wildcards"
    P.loop_specs[(q, 0)] = dict(mode="generic", index=i0)
    members = P.getattr(obj, "members")
    P.assume(z3.And(i0 >= 0, i0 < zint(members.keys_seq.len)))
    wname = members.keys_seq.at(i0)
    w = members.get0(wname)
    P.assume(w.cls.z == ALL_KINDS.index("Alias"))          # the other member kinds only recurse into sub-modules (callee contract)
    P.assume(z3.Bool("package_loaded"))                     # loading of external packages is covered by C06/C15
    P.assume(z3.Bool("external_none"))
    is_wild = z3.Bool("member_is_a_wildcard_import")
    P.attr_hooks[("Alias", "wildcard")] = lambda P_, o: SUnion([(z3.Not(is_wild), None), (is_wild, P_.getattr(o, "target_path"))]) if o is w else None
    P.attr_hooks[("Object", "package")] = lambda P_, o: SObj("Module", {"path": P_.fresh_str("pkg_path"), "name": P_.fresh_str("pkg_name")}, frozen=True)
    P.opaque_hooks["_griffe.collections:ModulesCollection.__contains__"] = lambda P_, a, k: SBool(z3.Bool("package_loaded"))
    P.opaque_hooks[LD + "load"] = lambda P_, a, k: may_raise(P_, "load", ["ImportError", "LoadingError"])
    target = H.obj("target_module", ["Module"])
    found = z3.Bool("target_found")

    def coll_get(P_, a, k):
        if a[0] is coll:
            if not P_.branch(found):
                raise PyExc(P_.mk_exc("KeyError", "x"))
            return target
        return models.getitem(P_, P_.getattr(a[0], "members"), a[1])
    P.opaque_hooks["_griffe.mixins:GetMembersMixin.get_member"] = coll_get
    rec = []
    P.opaque_hooks[q] = lambda P_, a, k: rec.append((a, k))      # the callee's own contract: never raises
    new_member = H.obj("new_member", ["Function", "Module", "Alias"])
    wl = P.fresh_int("wildcard_lineno")
    exp_raises = z3.Bool("expansion_raises")

    def expand_one(P_, a, k):
        if P_.branch(exp_raises):
            raise PyExc(SObj("CyclicAliasError", {"args": ([],), "chain": []}))
        return [(new_member, wl, P_.fresh_int("wildcard_endlineno"))]
    P.opaque_hooks[LD + "_expand_wildcard"] = expand_one
    sets, dels = [], []
    P.opaque_hooks["_griffe.mixins:SetMembersMixin.set_member"] = lambda P_, a, k: sets.append(a)
    P.opaque_hooks["_griffe.mixins:DelMembersMixin.del_member"] = lambda P_, a, k: dels.append(a)
    P.opaque_hooks["new:Alias"] = lambda P_, a, k: SObj("Alias", {"name": a[0], "_target": a[1], "alias_lineno": k.get("lineno"), "_parent": k.get("parent")}, ident=P_.new_ident())
    kind, res = outcome(P, lambda: call(P, q, ld, obj, external=SUnion([(z3.Bool("external_none"), None), (z3.Not(z3.Bool("external_none")), SBool(z3.Bool("external")))]), seen=None))
    P.prove("expansion_never_raises", kind == "ok", exc=(P.resolve_cls(res) if kind == "raise" else ""))
    if kind != "ok":
        return
    wcls = P.resolve_cls(w)
    if wcls != "Alias":
        P.prove("only_wildcard_aliases_are_expanded", len(sets) == 0 and len(dels) == 0)
        return
    gen = P.ghost.get("generic_iteration")
    expanded = any(d[1] is wname or (isinstance(d[1], SStr) and d[1].z.sexpr() == zstr(P.getattr(w, "name")).sexpr()) for d in dels)
    P.prove("wildcard_statement_removed_iff_expanded", z3.Implies(z3.Not(is_wild), not expanded))
    if not expanded:
        P.prove("nothing_added_without_expansion", len(sets) == 0)
        return
    # the arbitrary exposed name: overwrite-by-line rule
    nname = P.getattr(new_member, "name")
    present = models.map_has(P, members, nname)
    ncls = P.resolve_cls(new_member)
    self_alias = z3.BoolVal(False)
    if ncls == "Alias":
        self_alias = zstr(P.getattr(new_member, "target_path")) == z3.Concat(H.path_of(obj), z3.StringVal("."), zstr(nname))
    P.prove("at_most_one_alias_per_exposed_name", len(sets) <= 1)
    P.prove("self_alias_is_never_created", z3.Implies(self_alias, len(sets) == 0))
    P.prove("new_name_is_added", z3.Implies(z3.And(z3.Not(self_alias), z3.Not(present)), len(sets) == 1), sets=len(sets))
    if sets:
        _, key, alias = sets[0]
        P.prove("alias_points_at_the_exposed_object_under_its_name", alias.fields["_target"] is new_member and alias.fields["_parent"] is obj and zstr(key).sexpr() == zstr(nname).sexpr())
        P.prove("alias_carries_the_wildcard_statement_line", alias.fields["alias_lineno"] is wl)
    P.cover("expand_wildcards")


def proxy_names(index):
    """Read-only forwarding properties of Alias, discovered in the real class body."""
    mi, node = index.class_info("Alias")
    out = []
    for st in node.body:
        if isinstance(st, ast.FunctionDef) and any(isinstance(d, ast.Name) and d.id == "property" for d in st.decorator_list):
            body = [s for s in st.body if not (isinstance(s, ast.Expr) and isinstance(s.value, ast.Constant))]
            if len(body) == 1 and isinstance(body[0], ast.Return) and body[0].value is not None:
                src = ast.unparse(body[0].value)
                for pat in (f"self.final_target.{st.name}", f"self.target.{st.name}"):
                    if src == pat or (src.startswith("cast(") and src.endswith(f"{pat})") or src.endswith(f"{pat[5:]}")):
                        out.append(st.name)
                        break
    return sorted(set(out))


@contract("C05", "alias.proxies_forward_to_final_target", [MD + "Alias.final_target"], floor=20, replay="replay_packages")
def c_proxies(P):
    H = Heap(P)
    a = H.obj("alias", ["Alias"])
    names = proxy_names(P.index)
    if len(names) < 20:
        raise Unsupported(f"only {len(names)} forwarding properties recognised in class Alias")
    for n in names:
        a.lazy.pop(n, None)
        a.fields.pop(n, None)
    target = SObj("TargetStub", {n: Opaque("value_of_" + n, z3.Int("tv_" + n)) for n in names}, ident=z3.Int("final_target_id"))
    outcome_z = z3.Int("final_target_outcome")
    P.assume(z3.And(outcome_z >= 0, outcome_z <= 2))

    def final_target(P_, o):
        if P_.branch(outcome_z == 0):
            return target
        if P_.branch(outcome_z == 1):
            raise PyExc(SObj("AliasResolutionError", {"args": (o,), "alias": o}))
        raise PyExc(SObj("CyclicAliasError", {"args": ([],), "chain": []}))
    P.attr_hooks[("Alias", "final_target")] = final_target
    P.attr_hooks[("Alias", "target")] = final_target
    for n in names:
        kind, res = outcome(P, lambda: P.getattr(a, n))
        if kind == "raise":
            P.prove(f"proxy.{n}.raises_only_alias_errors", z3.And(outcome_z != 0, P.resolve_cls(res) in ("AliasResolutionError", "CyclicAliasError")))
        else:
            P.prove(f"proxy.{n}.presents_the_target_value", res is target.fields[n])
    P.cover("proxies")


@contract("C05", "alias.members_rebased", [MD + "Alias.members"], floor=3, replay="replay_packages")
def c_alias_members(P):
    H = Heap(P)
    a = H.obj("alias", ["Alias"])
    t = H.obj("final", OBJ_KINDS)
    P.attr_hooks[("Alias", "final_target")] = lambda P_, o: t
    a.lazy.pop("members", None)
    made = []
    P.opaque_hooks["new:Alias"] = lambda P_, a_, k: (made.append((a_, k)), SObj("Alias", {"name": a_[0], "_target": k.get("target"), "_parent": k.get("parent"), "inherited": k.get("inherited")}, ident=P_.new_ident()))[1]
    kind, res = outcome(P, lambda: P.getattr(a, "members"))
    P.prove("never_raises", kind == "ok", exc=str(res))
    if kind != "ok":
        return
    if not isinstance(res, loops.DictOfSeq):
        raise Unsupported(f"expected a dict comprehension over the target members, got {type(res).__name__}")
    tm = P.getattr(t, "members")
    i = z3.Int("i_member")
    P.assume(z3.And(i >= 0, i < zint(tm.keys_seq.len)))
    k, v = res.seq.at(i)
    name = tm.keys_seq.at(i)
    P.prove("same_names_as_the_target", zstr(k).sexpr() == zstr(name).sexpr())
    P.prove("member_is_an_alias_to_the_targets_member", v.fields["_target"] is tm.get0(name))
    P.prove("member_is_rebased_under_the_alias", v.fields["_parent"] is a and zstr(v.fields["name"]).sexpr() == zstr(name).sexpr())
    P.cover("alias.members")


def bounded_checks(tier, seed):
    import json, os, subprocess, time
    from pyvc.run import VERIF, VENV_PY, REPO_SRC
    t0 = time.time()
    n_random, budget = (300, 90) if tier == "quick" else (5000, 1200)
    r = subprocess.run([VENV_PY, "-m", "replay.C05", str(seed), str(n_random), str(budget)], capture_output=True, text=True, cwd=str(VERIF),
                       env=dict(os.environ, PYTHONPATH=str(REPO_SRC)), timeout=budget + 300)
    if r.returncode != 0:
        raise RuntimeError("bounded C05 sweep crashed: " + r.stderr[-1500:])
    d = json.loads(r.stdout.strip().splitlines()[-1])
    return [{"check": "packages_vs_cpython_import", "tool": "generated acyclic packages imported by CPython; names visible per module, __all__, and the defining object of every name vs. the loaded+resolved Griffe tree",
             "bound": f"3 modules; 400 exhaustive-style graphs + {n_random} random graphs of 1-3 statements per module over definitions, __all__ forms (incl. assembled from another module's __all__, also with augmented assignments), absolute/relative/aliased/wildcard imports; directed override chains and same-line statements; 5 directed sub-package layouts (the same module text reached at different relative levels, several wildcard imports per module, re-exported further)",
             "cases": d["cases"], "not_importable_for_cpython": d["not_importable"], "failing": len(d["bad"]), "wall_s": round(time.time() - t0, 1), "class_match": True, "violations": d["bad"]}]


@contract("C05", "expand_exports.per_export", [LD + "expand_exports"], floor=4, replay="replay_packages", split=16)
def c_expand_exports(P):
    """One generic item of __all__ from an arbitrary accumulated list: a string is kept as is; a reference to another module's __all__ is replaced by that
    module's exports *as they are after that module has itself been expanded* (the referenced module is expanded first unless already seen, its exports are
    read afterwards), skipped when the module is not loaded; the module's exports are replaced by the accumulated list; seen gains the module's path."""
    ld = SObj("GriffeLoader", {"modules_collection": SObj("ModulesCollection", {}, ident=z3.Int("coll_id"), frozen=True)}, ident=z3.Int("loader_id"))
    mpath = P.fresh_str("module_path")
    IS_REF = z3.Function("EXPORT_IS_REFERENCE", IntS, BoolS)
    EXPORT_STR = z3.Function("EXPORT_STRING", IntS, StrS)
    REF_PATH = z3.Function("EXPORT_REFERENCE_PATH", IntS, StrS)

    def mk_export(i):
        zi = zint(i)
        return SUnion([(IS_REF(zi), SObj("ExprName", {"canonical_path": SStr(REF_PATH(zi)), "__index": SInt(zi)}, ident=z3.Function("EXPORT_NAME", IntS, IntS)(zi), frozen=True)),
                       (z3.Not(IS_REF(zi)), SStr(EXPORT_STR(zi)))])
    exports = sym_seq(P, "exports", mk_export)
    module = SObj("Module", {"path": mpath, "exports": exports, "modules": {}}, ident=z3.Int("module_id"))
    P.attr_hooks[("Module", "path")] = lambda P_, o: o.fields["path"]
    P.attr_hooks[("Module", "modules")] = lambda P_, o: o.fields["modules"]
    P.attr_hooks[("ExprName", "canonical_path")] = lambda P_, o: o.fields["canonical_path"] if "canonical_path" in o.fields else models.NOATTR
    # the referenced module: not loaded, or a module whose exports are OLD before and NEW after its own expansion
    loaded = z3.Bool("referenced_module_is_loaded")
    nm_path = P.fresh_str("referenced_module_path")
    OLD, NEW = z3.Function("REFERENCED_EXPORTS_BEFORE", IntS, StrS), z3.Function("REFERENCED_EXPORTS_AFTER", IntS, StrS)
    old_exports = sym_seq(P, "referenced_exports_before", lambda i: SStr(OLD(zint(i))))
    new_exports = sym_seq(P, "referenced_exports_after", lambda i: SStr(NEW(zint(i))))
    next_module = SObj("Module", {"path": nm_path, "exports": old_exports, "modules": {}}, ident=z3.Int("referenced_module_id"))
    P.assume(next_module.ident != module.ident)
    log = []

    def get_member(P_, a, k):
        log.append(("lookup", a[1]))
        if P_.branch(loaded):
            return next_module
        raise PyExc(P_.mk_exc("KeyError", "not loaded"))
    P.opaque_hooks["_griffe.mixins:GetMembersMixin.get_member"] = get_member
    P.opaque_hooks["_griffe.collections:ModulesCollection.get_member"] = get_member

    def rec(P_, a, k):
        # callee contract (modular recursion): the module's exports are replaced by their expansion, its path is marked seen
        m = a[1]
        log.append(("expand", m))
        if m is next_module:
            m.fields["exports"] = new_exports
        return None
    seen_in = z3.Bool("referenced_module_already_seen")
    q = LD + "expand_exports"
    from pyvc.models import SymSet

    def hint_expanded(P_, nm):
        return sym_seq(P_, "expanded_so_far", lambda i: SStr(z3.Function("EXPANDED_SO_FAR", IntS, StrS)(zint(i))))
    marks = {}

    def post_body(P_, before, after):
        exp_before, exp_after = before["expanded"], after["expanded"]
        raw = after["export"]
        export = P_.choose(raw) if isinstance(raw, SUnion) else raw
        nb = zint(P_.seq_len(P_.to_seq(exp_before)))
        if isinstance(export, SStr):
            last = P_.seq_at(P_.to_seq(exp_after), mk_int(nb))
            P_.prove("a_string_export_is_kept_as_is", zint(P_.seq_len(P_.to_seq(exp_after))) == nb + 1)
            P_.prove("a_string_export_is_kept_as_is.value", last is raw or last is export)
            return
        expands = [e for e in log if e[0] == "expand"]
        lookups = [e for e in log if e[0] == "lookup"]
        P_.prove("the_referenced_module_is_looked_up_once", len(lookups) == 1)
        if not expands and exp_after is exp_before:
            P_.prove("an_unloaded_or_unreadable_module_adds_nothing", True)
            return
        # whatever was added comes from the referenced module's exports as they are *now*
        if isinstance(exp_after, loops.SCat) or not (exp_after is exp_before):
            src = next_module.fields["exports"]
            added = exp_after
            P_.ghost["added_from"] = src
            P_.prove("exports_are_read_after_the_referenced_module_was_expanded", (not expands) or src is new_exports)
            P_.prove("added_names_come_from_the_current_exports_of_the_referenced_module", _reads_only(P_, added, exp_before, src), src=("after" if src is new_exports else "before"))
    P.opaque_hooks[LD + "expand_exports"] = rec
    # keyed by what the loop iterates over (the loop over the module's exports), not by its position in the function
    P.loop_specs[("*", "iter:module.exports")] = dict(mode="inv", name="exports",
                                                      hints={"expanded": hint_expanded, "export": lambda P_, nm: None, "module_path": lambda P_, nm: P_.fresh_str(nm)},
                                                      post_body=post_body, may_write=("exports",))
    seen = SymSet(items=[], parts=[])
    P.ghost["seen_set"] = seen
    # `next_module.path not in seen`: either way
    P.attr_hooks[("Module", "path")] = lambda P_, o: o.fields["path"]
    kind, res = outcome(P, lambda: call(P, q, ld, module, None))
    if kind == "raise":
        P.prove("never_raises", False, exc=P.resolve_cls(res))
        return
    P.prove("module_exports_replaced_by_the_accumulated_list", module.fields["exports"] is not exports or zint(exports.len) == 0)
    P.cover("expand_exports")


def _reads_only(P, added, before, src):
    """The value appended to `before` is a filtered read of `src` (the engine's summary of `[e for e in src if e not in expanded]`)."""
    parts = added.parts if isinstance(added, loops.SCat) else None
    if parts is None:
        return False
    tail = [p for p in parts if not (p is before or (isinstance(p, list) and not p))]
    ok = True
    for p in tail:
        base = p.seq if isinstance(p, loops.SFilter) else (p[0].seq if isinstance(p, tuple) and isinstance(p[0], loops.SFlat) else None)
        if base is None or base is not src:
            ok = False
    return ok and bool(tail)


# --------------------------------------------------------------------------- __all__ += ... (the visitor side of `__all__` assembled from several places)
VSV = "_griffe.agents.visitor:Visitor."


@contract("C05", "visit_augassign.all_is_extended_by_every_item", [VSV + "visit_augassign"], floor=4, replay="replay_packages")
def c_visit_augassign(P):
    """`__all__ += <items>` in a module appends every extracted item, in order, to the exports collected so far (strings as they are, references to another
    module's `__all__` as names with the same text and scope) -- also items that are already there or that compare equal to one that is (list `+=` never
    drops anything; two references `a.__all__` and `b.__all__` are different exports); any other augmented assignment leaves the exports alone."""
    from specs import visitorfx as VF
    v, cur, ev, info = VF.mk_visitor(P, cur_kinds=("Module", "Class"))
    target_is_all = z3.Bool("target_is___all__")
    tname = SStr(z3.If(target_is_all, z3.StringVal("__all__"), z3.String("other_target")))
    P.assume(z3.Or(target_is_all, z3.String("other_target") != z3.StringVal("__all__")))
    is_add = z3.Bool("operator_is_add")
    op = SObj("ast.Add", {}, frozen=True) if P.branch(is_add) else SObj("ast.Sub", {}, frozen=True)
    attr_target = z3.Bool("target_is_an_attribute")          # x.y += ...: no `id`
    target = SObj("ast.Attribute", {}, frozen=True) if P.branch(attr_target) else SObj("ast.Name", {"id": tname}, frozen=True)
    node = VF.ast_node(P, "ast.AugAssign", "augassign", target=target, op=op, value=VF.ast_node(P, "ast.List", "value"))
    # exports so far: one string and one reference (the filter of a broken rewrite has something to compare with), then anything
    scope = SObj("Module", {}, ident=z3.Int("names_scope_id"), frozen=True)
    old_ref = SObj("ExprName", {"name": P.fresh_str("old_ref_name"), "parent": scope}, ident=z3.Int("old_ref_id"))
    old_str = P.fresh_str("old_export")
    exports = MList([old_str, old_ref])
    cur.fields["exports"] = exports
    # what the statement adds: an arbitrary sequence of strings and references
    IS_REF = z3.Function("ITEM_IS_REFERENCE", IntS, BoolS)
    ITEM_STR = z3.Function("ITEM_STRING", IntS, StrS)
    ITEM_NAME = z3.Function("ITEM_REFERENCE_TEXT", IntS, StrS)

    def mk_item(i):
        zi = zint(i)
        return SUnion([(IS_REF(zi), SObj("ExprName", {"name": SStr(ITEM_NAME(zi)), "parent": scope}, ident=z3.Function("ITEM_REF_ID", IntS, IntS)(zi))),
                       (z3.Not(IS_REF(zi)), SStr(ITEM_STR(zi)))])
    items = sym_seq(P, "items", mk_item)
    for mod in ("_griffe.agents.visitor", "_griffe.agents.nodes.exports"):
        P.opaque_hooks[mod + ":safe_get__all__"] = lambda P_, a, k: items
    # equality of names is by text (ExprName.__eq__): run the real method
    is_module = P.resolve_cls(cur) == "Module"
    kind, res = outcome(P, lambda: call(P, VSV + "visit_augassign", v, node))
    P.prove("never_raises", kind == "ok", exc=(P.resolve_cls(res) if kind == "raise" else ""))
    if kind != "ok":
        return
    after = cur.fields["exports"]
    if isinstance(after, MList):
        after = after.seq
    n_after = zint(P.seq_len(after))
    applies = z3.And(z3.Not(attr_target), target_is_all, is_add, z3.BoolVal(is_module))
    P.prove("every_item_is_appended", z3.Implies(applies, n_after == 2 + zint(items.len)))
    P.prove("other_augmented_assignments_leave_the_exports_alone", z3.Implies(z3.Not(applies), n_after == 2))
    P.prove("exports_so_far_are_kept_in_place", z3.And(zbool(P.eq(P.seq_at(after, 0), old_str)), zbool(P.identical(P.seq_at(after, 1), old_ref))))
    k_ = P.fresh_int("some_item")
    if P.branch(z3.And(applies, k_.z >= 0, k_.z < zint(items.len))):
        got = P.seq_at(after, SInt(k_.z + 2))
        if isinstance(got, SUnion):
            got = P.choose(got)
        if P.branch(IS_REF(k_.z)):
            P.prove("a_reference_is_kept_as_a_name_with_the_same_text_and_scope",
                    isinstance(got, SObj) and P.resolve_cls(got) == "ExprName" and zbool(P.eq(got.fields["name"], SStr(ITEM_NAME(k_.z)))) and got.fields.get("parent") is scope)
        else:
            P.prove("a_string_is_kept_as_it_is", zbool(P.eq(got, SStr(ITEM_STR(k_.z)))))
    P.cover("visit_augassign")


# --------------------------------------------------------------------------- two wildcard statements in one module
@contract("C05", "visit_importfrom.wildcard_members_do_not_collide", [VSV + "visit_importfrom"], floor=3, replay="replay_packages")
def c_two_wildcards(P):
    """`from a import *` and `from b import *` in one module both contribute ("later statements overriding earlier ones"): the temporary members they leave for
    expand_wildcards are keyed by the module each one targets, so two statements collide only if they target the same module -- however the module is written
    (`.util` and `..util` spell the same text and reach different modules)."""
    H = Heap(P)
    cur = H.obj("current", ["Module", "Class"])
    cur.fields["imports"] = {}
    v = SObj("Visitor", {"current": cur, "type_guarded": SBool(z3.Bool("type_guarded")), "extensions": Opaque("lenient:extensions")}, ident=z3.Int("visitor_id"))
    sets = []
    P.opaque_hooks["_griffe.mixins:SetMembersMixin.set_member"] = lambda P_, a, k: sets.append(a)
    P.opaque_hooks["new:Alias"] = lambda P_, a, k: SObj("Alias", {"name": a[0], "target_path": a[1]}, ident=P_.new_ident())
    module = H.obj("module", ["Module"])
    P.attr_hooks[("Object", "module")] = lambda P_, o: module
    P.attr_hooks[("Module", "is_init_module")] = lambda P_, o: SBool(z3.Bool("current_module_is_init"))
    targets = [z3.String("TARGET_1"), z3.String("TARGET_2")]
    REPL = models.ufn("str_replace", StrS, StrS, StrS, StrS)
    for t in targets:
        P.assume(z3.And(z3.Length(t) > 0, z3.Not(z3.Contains(t, z3.StringVal("/"))), z3.Not(z3.Contains(t, z3.StringVal("*")))))
        P.assume(REPL(z3.Concat(t, z3.StringVal(".*")), z3.StringVal(".*"), z3.StringVal("")) == t)
        P.assume(z3.SuffixOf(z3.StringVal("*"), REPL(z3.Concat(t, z3.StringVal(".*")), z3.StringVal("."), z3.StringVal("/"))))     # replacing dots keeps the final '*'
    P.assume((REPL(targets[0], z3.StringVal("."), z3.StringVal("/")) == REPL(targets[1], z3.StringVal("."), z3.StringVal("/"))) == (targets[0] == targets[1]))
    # the same fact for the paths still carrying their '.*' (whichever of the two the code replaces in)
    P.assume((REPL(z3.Concat(targets[0], z3.StringVal(".*")), z3.StringVal("."), z3.StringVal("/"))
              == REPL(z3.Concat(targets[1], z3.StringVal(".*")), z3.StringVal("."), z3.StringVal("/"))) == (targets[0] == targets[1]))
    calls = []

    def rel2abs(P_, a, k):
        calls.append(a)
        return SStr(z3.Concat(targets[len(calls) - 1], z3.StringVal(".*")))
    P.opaque_hooks["_griffe.agents.nodes.imports:relative_to_absolute"] = rel2abs
    P.opaque_hooks["_griffe.agents.visitor:relative_to_absolute"] = rel2abs
    for i in (1, 2):
        al = SObj("ast.alias", {"name": "*", "asname": None}, frozen=True)
        level = P.fresh_int(f"level_{i}")
        P.assume(level.z >= 0)
        text = P.fresh_str(f"node_module_{i}")
        P.assume(z3.Length(text.z) > 0)
        node = SObj("ast.ImportFrom", {"names": [al], "module": text, "level": level, "lineno": P.fresh_int(f"lineno_{i}"), "end_lineno": P.fresh_int(f"end_lineno_{i}")},
                    frozen=True)
        kind, res = outcome(P, lambda: call(P, VSV + "visit_importfrom", v, node))
        P.prove("never_raises", kind == "ok", exc=str(res))
        if kind != "ok":
            return
    P.prove("one_temporary_member_per_wildcard_statement", len(sets) == 2, sets=len(sets))
    if len(sets) != 2:
        return
    (_, k1, a1), (_, k2, a2) = sets
    P.prove("temporary_member_points_at_the_targeted_module", z3.And(zstr(a1.fields["target_path"]) == targets[0], zstr(a2.fields["target_path"]) == targets[1]))
    P.prove("statements_targeting_different_modules_do_not_collide", z3.Implies(zstr(k1) == zstr(k2), targets[0] == targets[1]))
    P.prove("member_keyed_by_alias_name", z3.And(zstr(k1) == zstr(a1.fields["name"]), zstr(k2) == zstr(a2.fields["name"])))
    P.cover("two_wildcards")
