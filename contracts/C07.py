"""C07 — MRO and inherited members equal CPython's: contracts on Class._mro / mro / inherited_members / all_members."""
from __future__ import annotations

import z3

from pyvc.api import *  # noqa: F403
from pyvc.values import *  # noqa: F403
from pyvc import models
from specs.heap import Heap, OBJ_KINDS, ALL_KINDS

MD = "_griffe.models:"

TRUSTED_BASE = [
    "Class._mro: at most 3 resolved bases per class (the property's own bound); their contents are symbolic",
    "c3linear_merge is taken by contract inside _mro (opaque), and decided separately by the bounded tier against CPython's type()",
    "termination of _mro: `seen` is extended by a path not yet in it before every recursive call (proved); finitely many class paths in a finite tree",
]
ASSUMPTIONS = [
    "c3linear_merge == C3 and mro()/inherited members == CPython for whole hierarchies: bounded tier (exhaustive hierarchies, type() as oracle), never counted as proved",
]


@contract("C07", "_mro.cycle_guard", [MD + "Class._mro", MD + "Class.mro"], floor=5, replay="replay_hierarchies")
def c_mro(P):
    H = Heap(P)
    cls = H.obj("cls", ["Class"])
    nb = z3.Int("n_resolved_bases")
    P.assume(z3.And(nb >= 0, nb <= 3))
    P.witness["n_resolved_bases"] = SInt(nb)
    n = next(k for k in range(4) if P.branch(nb == k) or k == 3)
    bases = [H.obj(f"base{i}", OBJ_KINDS) for i in range(n)]
    P.attr_hooks[("Class", "resolved_bases")] = lambda P_, o: list(bases) if o is cls else (_ for _ in ()).throw(Unsupported("resolved_bases of another class"))
    seen_f = z3.Function("seen_item", IntS, StrS)
    seen = sym_seq(P, "seen", lambda i: SStr(seen_f(i)), kind="tuple")
    rec, merges = [], []

    def rec_mro(P_, a, k):
        rec.append((a[0], a[1] if len(a) > 1 else k.get("seen", ())))
        return [a[0], Opaque("rest_of_mro", z3.Int(P_._fresh_name("rest")))]
    P.opaque_hooks[MD + "Class._mro"] = rec_mro

    def merge(P_, a, k):
        merges.append(a)
        return [Opaque("merged", z3.Int("merged_id"))]
    P.opaque_hooks["_griffe.c3linear:c3linear_merge"] = merge
    P.opaque_hooks["_griffe.models:c3linear_merge"] = merge
    kind, res = outcome(P, lambda: call(P, MD + "Class._mro", cls, seen))
    class_bases = [b for b in bases if P.resolve_cls(b) == "Class"]
    self_path = H.path_of(cls)

    def in_seen2(p):
        j = z3.Int("j_seen")
        return z3.Or(p == self_path, z3.Exists([j], z3.And(j >= 0, j < zint(seen.len), seen_f(j) == p)))
    cyc = z3.Or(*[in_seen2(H.path_of(b)) for b in class_bases]) if class_bases else z3.BoolVal(False)
    if kind == "raise":
        P.prove("only_ValueError_and_only_for_cycles", z3.And(cyc, P.resolve_cls(res) == "ValueError"), exc=P.resolve_cls(res))
        P.prove("no_recursion_before_cycle_detection", len(rec) == 0, recursions=len(rec))
        P.cover("_mro.raise")
        return
    P.prove("cycle_is_reported_not_followed", z3.Not(cyc))
    if not class_bases:
        P.prove("no_class_bases_gives_self", isinstance(res, list) and len(res) == 1 and res[0] is cls)
    else:
        P.prove("recurses_exactly_on_the_class_bases_in_order", [r[0] for r in rec] == class_bases)
        for b, s2 in rec:
            s2 = P.to_seq(s2)
            P.prove("seen_grows_by_own_path.len", zint(P.seq_len(s2)) == zint(seen.len) + 1)
            P.prove("seen_grows_by_own_path.last", zstr(P.seq_at(s2, mk_int(zint(seen.len)))) == self_path)
            j = z3.Int("j_keep")
            P.assume(z3.And(j >= 0, j < zint(seen.len)))
            P.prove("seen_grows_by_own_path.prefix_kept", zstr(P.seq_at(s2, j)) == seen_f(j))
        P.prove("merges_once", len(merges) == 1, level="pinned")
        if len(merges) == 1:
            args = merges[0]
            P.prove("merge_gets_base_linearizations_then_bases", len(args) == len(class_bases) + 1 and list(args[-1]) == class_bases
                    and all(isinstance(a, list) and a[0] is b for a, b in zip(args[:-1], class_bases)))
        P.prove("self_comes_first", isinstance(res, list) and res[0] is cls)
    P.cover("_mro.ok")


@contract("C07", "inherited_members.nearest_wins", [MD + "Object.inherited_members"], floor=5, replay="replay_hierarchies", tier="BS",
          note="<= 2 (quick) / 3 (thorough) classes in the MRO, <= 2 members per base; names, identities and own members symbolic", shard_bits=3)
def c_inherited(P):
    H = Heap(P)
    cls = H.obj("cls", ["Class"])
    own = P.getattr(cls, "members")
    import os
    maxb = 3 if os.environ.get("PYVC_TIER") == "thorough" else 2
    nb = z3.Int("mro_len")
    P.assume(z3.And(nb >= 0, nb <= maxb))
    n = next(k for k in range(maxb + 1) if P.branch(nb == k) or k == maxb)
    mro_fails = z3.Bool("mro_raises")
    bases = []
    for i in range(n):
        b = H.obj(f"mro{i}", ["Class"])
        nm = z3.Int(f"mro{i}_nmembers")
        P.assume(z3.And(nm >= 0, nm <= 2))
        cnt = next(k for k in range(3) if P.branch(nm == k) or k == 2)
        keys = [P.fresh_str(f"mro{i}_key{j}") for j in range(cnt)]
        if cnt == 2:
            P.assume(keys[0].z != keys[1].z)
        vals = [H.obj(f"mro{i}_val{j}", OBJ_KINDS) for j in range(cnt)]
        b.fields["members"] = dict(zip([models._SymKey(k) for k in keys], vals))
        b.keys, b.vals = keys, vals
        bases.append(b)

    def mro(P_, a, k):
        if P_.branch(mro_fails):
            raise PyExc(P_.mk_exc("ValueError", "Cannot compute C3 linearization"))
        return list(bases)
    P.opaque_hooks[MD + "Class.mro"] = mro
    created = []

    def new_alias(P_, a, k):
        o = SObj("Alias", {"name": a[0], "_target": a[1], "_parent": k.get("parent"), "inherited": k.get("inherited", False)}, ident=P_.new_ident())
        created.append(o)
        return o
    P.opaque_hooks["new:Alias"] = new_alias
    kind, res = outcome(P, lambda: P.getattr(cls, "inherited_members"))
    P.prove("never_raises", kind == "ok", exc=str(res))
    if kind != "ok":
        return
    if not isinstance(res, dict):
        raise Unsupported("inherited_members did not return a dict")
    items = [(k.v if isinstance(k, models._SymKey) else k, v) for k, v in res.items()]
    # a generic name
    name = P.fresh_str("probe")
    in_own = models.map_has(P, own, name)
    first = None  # (condition, value) of the first class in MRO order defining `name`
    conds = []
    none_before = z3.BoolVal(True)
    for b in bases:
        here = z3.Or(*[k.z == name.z for k in b.keys]) if b.keys else z3.BoolVal(False)
        for k, v in zip(b.keys, b.vals):
            conds.append((z3.And(none_before, k.z == name.z), v))
        none_before = z3.And(none_before, z3.Not(here))
    defined_somewhere = z3.Not(none_before)
    present = z3.Or(*[zstr(k) == name.z for k, v in items]) if items else z3.BoolVal(False)
    failed = z3.And(mro_fails, n >= 0)
    exp_present = z3.And(defined_somewhere, z3.Not(in_own))
    if P.branch(mro_fails):
        P.prove("uncomputable_mro_gives_no_inherited_members", len(items) == 0)
        return
    P.prove("keys_are_base_members_not_declared_by_the_class", present == exp_present)
    for k, v in items:
        if P.branch(zstr(k) == name.z):
            tgt = v.fields["_target"]
            for cnd, val in conds:
                P.prove("nearest_definition_in_mro_order_wins", z3.Implies(cnd, tgt is val))
            P.prove("presented_as_inherited_alias_under_the_subclass", z3.And(v.fields["inherited"] is True, v.fields["_parent"] is cls,
                                                                             zstr(v.fields["name"]) == name.z))
            break
    P.cover("inherited_members")


@contract("C07", "all_members.own_wins", ["_griffe.mixins:ObjectAliasMixin.all_members"], floor=2, replay="replay_hierarchies")
def c_all_members(P):
    H = Heap(P)
    is_class = z3.Bool("is_class")
    o = H.obj("o", ["Class"] if P.branch(is_class) else ["Module"])
    k1, k2 = P.fresh_str("k_inherited"), P.fresh_str("k_own")
    collide = k1.z == k2.z
    inh_v, own_v = H.obj("inh_v", ["Alias"]), H.obj("own_v", OBJ_KINDS)
    P.attr_hooks[("Object", "inherited_members")] = lambda P_, x: {models._SymKey(k1): inh_v}
    o.fields["members"] = {models._SymKey(k2): own_v}
    kind, res = outcome(P, lambda: P.getattr(o, "all_members"))
    P.prove("never_raises", kind == "ok")
    if kind != "ok":
        return
    items = [(k.v if isinstance(k, models._SymKey) else k, v) for k, v in res.items()]
    got_own = [v for k, v in items if v is own_v]
    P.prove("own_member_always_present", len(got_own) == 1)
    if P.resolve_cls(o) == "Class":
        shadowed = [v for k, v in items if v is inh_v]
        P.prove("inherited_never_shadows_own", z3.Implies(collide, len(shadowed) == 0))
        P.prove("inherited_visible_otherwise", z3.Implies(z3.Not(collide), len(shadowed) == 1))
    else:
        P.prove("non_classes_have_no_inherited_members", all(v is not inh_v for k, v in items))
    P.cover("all_members")


@contract("C07", "parameters.of_the_nearest_init", [MD + "Class.parameters"], floor=2, replay="replay_hierarchies")
def c_parameters(P):
    """The constructor a class presents is the `__init__` found through the MRO, i.e. the one all_members presents (own first, then nearest inherited: the two
    contracts above), never one looked up some other way (e.g. base by base, depth first)."""
    H = Heap(P)
    c = H.obj("c", ["Class"])
    b1, b2 = H.obj("b1", ["Class"]), H.obj("b2", ["Class"])
    inits = {}
    for o in (c, b1, b2):
        f = H.obj(f"init_of_{o.tag}", ["Function"])
        f.fields["parameters"] = H.obj(f"params_of_{o.tag}", ["Parameters"])
        inits[id(o)] = f
    other = H.obj("other_member", OBJ_KINDS)
    k = P.fresh_str("k_other")
    P.assume(k.z != z3.StringVal("__init__"))
    has = {id(o): z3.Bool(f"{o.tag}_presents_an_init") for o in (c, b1, b2)}

    def all_members(P_, o):
        if id(o) not in inits:
            raise Unsupported("all_members of another object")
        d = {models._SymKey(k): other}
        if P_.branch(has[id(o)]):
            d["__init__"] = inits[id(o)]
        return d
    P.attr_hooks[("ObjectAliasMixin", "all_members")] = all_members
    P.attr_hooks[("Class", "resolved_bases")] = lambda P_, o: [b1, b2] if o is c else []
    P.attr_hooks[("Object", "inherited_members")] = lambda P_, o: {}
    for o in (c, b1, b2):
        o.fields["members"] = {models._SymKey(k): other}       # none of the three declares __init__ itself: what they present is all_members' business
    kind, res = outcome(P, lambda: P.getattr(c, "parameters"))
    P.prove("never_raises", kind == "ok")
    if kind != "ok":
        return
    if P.branch(has[id(c)]):
        P.prove("parameters_of_the_init_found_through_the_mro", res is inits[id(c)].fields["parameters"])
        P.cover("parameters.init_found")
    else:
        P.prove("no_init_no_parameters", isinstance(res, SObj) and P.resolve_cls(res) == "Parameters" and res is not inits[id(b1)].fields["parameters"]
                and res is not inits[id(b2)].fields["parameters"])
        P.cover("parameters.no_init")


def bounded_checks(tier, seed):
    import json, os, subprocess, time
    from pyvc.run import VERIF, VENV_PY, REPO_SRC
    out = []
    for n, members, budget in ([(3, "1", 100)] if tier == "quick" else [(3, "1", 300), (4, "0", 1200)]):
        t0 = time.time()
        r = subprocess.run([VENV_PY, "-m", "replay.C07", str(n), members, str(budget)], capture_output=True, text=True, cwd=str(VERIF),
                           env=dict(os.environ, PYTHONPATH=str(REPO_SRC)), timeout=budget + 300)
        if r.returncode != 0:
            raise RuntimeError("bounded C07 sweep crashed: " + r.stderr[-1500:])
        d = json.loads(r.stdout.strip().splitlines()[-1])
        out.append({"check": f"hierarchies.n{n}", "tool": "exhaustive class hierarchies loaded with the real loader; CPython type() is the oracle; "
                    "run-time-checked contract of c3linear_merge on raw lists; c3linear_merge vs CPython on every acyclic hierarchy of 5 classes (<= 3 ordered bases)",
                    "bound": f"{n} classes, <= 3 ordered bases each (cycles included), member x placed in every subset of classes; 3-class hierarchies with a builtin (unresolvable) base at every position; 4 four-class diamonds with __init__ declared in every subset of the classes (Class.parameters against the MRO-nearest __init__)" if members == "1" else f"{n} classes, <= 3 ordered bases each (time budget {budget}s)",
                    "cases": d["hierarchies"] + d["c3_inputs"], "failing": len(d["bad"]), "wall_s": round(time.time() - t0, 1), "violations": d["bad"]})
    return out


# --------------------------------------------------------------------------- Class.resolved_bases: one base at a time
@contract("C07", "resolved_bases.per_base", [MD + "Class.resolved_bases"], floor=5, replay="replay_hierarchies")
def c_resolved_bases(P):
    """One arbitrary base of a class with any number of bases, from any list of bases resolved so far: a base that is found in the collection (through
    an alias when it is one) is appended, in source order, after the ones already there; a base that is not loaded, not static, or an alias that cannot be
    resolved is skipped -- and only skipped: the bases written after it are still looked at (CPython's MRO has them), nothing raises."""
    H = Heap(P)
    cls = H.obj("cls", ["Class"])
    coll = H.collection("coll")
    P.attr_hooks[("Object", "modules_collection")] = lambda P_, o: coll
    BASE_IS_STR = z3.Function("BASE_IS_A_STRING", IntS, BoolS)
    BASE_PATH = z3.Function("BASE_PATH", IntS, StrS)

    def mk_base(i):
        zi = zint(i)
        return SUnion([(BASE_IS_STR(zi), SStr(BASE_PATH(zi))),
                       (z3.Not(BASE_IS_STR(zi)), SObj("ExprName", {"canonical_path": SStr(BASE_PATH(zi))}, ident=z3.Function("BASE_EXPR_ID", IntS, IntS)(zi), frozen=True))])
    bases = sym_seq(P, "bases", mk_base)
    cls.fields["bases"] = bases
    P.attr_hooks[("ExprName", "canonical_path")] = lambda P_, o: o.fields["canonical_path"] if "canonical_path" in o.fields else models.NOATTR
    # the lookup of one base path: missing, an object, or an alias whose final target is an object / cannot be resolved (either alias error)
    looked = []

    def get_member(P_, a, k):
        oc = z3.Int(P_._fresh_name("lookup_outcome"))
        P_.assume(z3.And(oc >= 0, oc <= 4))
        looked.append((a[1], oc))
        if P_.branch(oc == 0):
            raise PyExc(P_.mk_exc("KeyError", "x"))
        if P_.branch(oc == 1):
            return H.obj("found_class", ["Class"])
        al = H.obj("found_alias", ["Alias"])
        H.final_memo[id(al)] = (z3.If(oc == 2, 0, z3.If(oc == 3, 1, 2)), H.obj("found_alias.final", ["Class"]))
        return al
    P.opaque_hooks["_griffe.mixins:GetMembersMixin.get_member"] = get_member
    q = MD + "Class.resolved_bases"

    def hint_resolved(P_, nm):
        return sym_seq(P_, "resolved_so_far", lambda i: H.obj(f"earlier[{zint(i).sexpr()[:12]}]", ["Class"]))

    def post_body(P_, before, after):
        # the accumulator is the one list-valued local of the loop, whatever it is called
        acc = [k for k, v_ in before.items() if isinstance(v_, (list, SSeq, MList)) and not k.startswith("__") and k != "bases"]
        if len(acc) != 1:
            raise Unsupported(f"cannot tell which local accumulates the resolved bases ({acc})")
        rb0, rb1 = before[acc[0]], after[acc[0]]
        n0, n1 = zint(P_.seq_len(rb0)), zint(P_.seq_len(rb1))
        if not looked:
            P_.prove("every_base_is_looked_up", False)
            return
        path, oc = looked[-1]
        if isinstance(path, SUnion):
            path = P_.choose(path)
        i = zint(before["__ibases"])
        P_.prove("the_base_is_looked_up_by_its_path", zstr(path) == BASE_PATH(i))
        resolvable = z3.Or(oc == 1, oc == 2)
        P_.prove("a_resolvable_base_is_appended_an_unresolvable_one_is_skipped", n1 == n0 + z3.If(resolvable, 1, 0))
        if P_.branch(resolvable):
            last = P_.seq_at(rb1, SInt(n0))
            if isinstance(last, SUnion):
                last = P_.choose(last)
            P_.prove("appended_base_is_the_class_found_never_an_alias", isinstance(last, SObj) and P_.resolve_cls(last) == "Class")
        k_ = P_.fresh_int("earlier_index")
        if P_.branch(z3.And(k_.z >= 0, k_.z < n0)):
            P_.prove("bases_resolved_so_far_are_kept_in_place", P_.identical(P_.seq_at(rb1, k_), P_.seq_at(rb0, k_)))
    def role_hint(P_, sym, cur):
        # hints by the role of the carried value, not by its name: the accumulated list is an arbitrary list of classes, everything else is set in the iteration
        if isinstance(cur, (list, SSeq, MList)):
            return hint_resolved(P_, sym)
        if isinstance(cur, (str, SStr)):
            return P_.fresh_str(sym)
        return None
    P.loop_specs[("*", "iter:self.bases")] = dict(mode="inv", name="bases", no_break=True, post_body=post_body, default_hint=role_hint,
                                                  hints={"base_path": lambda P_, nm: P_.fresh_str(nm), "resolved_base": lambda P_, nm: None, "base": lambda P_, nm: None,
                                                         "target": lambda P_, nm: None, "found": lambda P_, nm: None})
    kind, res = outcome(P, lambda: P.getattr(cls, "resolved_bases"))
    P.prove("never_raises", kind == "ok", exc=(P.resolve_cls(res) if kind == "raise" else ""))
    P.cover("resolved_bases")
