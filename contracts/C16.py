"""C16 — object-tree invariants: per-operation contracts on mixins / collections / Alias links."""
from __future__ import annotations

import z3

from pyvc.api import *  # noqa: F403
from pyvc.values import *  # noqa: F403
from pyvc import models
from specs.heap import Heap, key_seq

MX = "_griffe.mixins:"
MD = "_griffe.models:"

# these native replays search on their own (guided by the obligation / expected outcome), not from the abstract witness: one run per obligation
REPLAY_KEYED_BY_EXPECTS = {"replay_tree_ops", "replay_alias_links", "replay_get_parts"}

TRUSTED_BASE = [
    "tree fixtures: distinct fixture objects have distinct identities; aliasing cases (value is the container, value is the old member, "
    "alias is its own target) are constructed explicitly",
    "path(o) is the uninterpreted PATH_v(o) per heap version; Object.canonical_path / Alias.path are proved equal to the recursive definition in their own contracts",
    "recursive calls (multi-part keys) are replaced by the callee's own contract (modular recursion, variant len(parts))",
    "preconditions taken from all in-repo call sites: an inserted value is keyed by its own name",
    "merge_stubs is taken by contract (returns one of its arguments or raises ValueError) -- see C19",
]
ASSUMPTIONS = [
    "global invariant over whole operation histories (incl. 'listed under its *current* path' after later re-parenting) is decided bounded, not proved",
]


def other_key(P, tag="other_key"):
    return P.fresh_str(tag)


# --------------------------------------------------------------------------- _get_parts
@contract("C16", "_get_parts", [MX + "_get_parts"], floor=3, replay="replay_get_parts")
def c_get_parts(P):
    is_str = z3.Bool("key_is_str")
    P.witness["key_is_str"] = SBool(is_str)
    if P.branch(is_str):
        key = P.fresh_str("key")
        P.witness["key"] = key
        kind, res = outcome(P, lambda: call(P, MX + "_get_parts", key))
        empty = key.z == z3.StringVal("")
        if kind == "raise":
            P.prove("empty_string_is_ValueError", z3.And(empty, P.resolve_cls(res) == "ValueError"))
        else:
            P.prove("non_empty_string_accepted", z3.Not(empty))
            P.prove("result_non_empty", zint(P.seq_len(res)) >= 1)
            P.prove("no_dot_means_single_part", z3.Implies(z3.Not(z3.Contains(key.z, z3.StringVal("."))),
                                                         z3.And(zint(P.seq_len(res)) == 1, zstr(P.seq_at(res, 0)) == key.z)))
    else:
        seq, f = key_seq(P, "keyparts", minlen=0)
        P.witness["key"] = seq
        kind, res = outcome(P, lambda: call(P, MX + "_get_parts", seq))
        if kind == "raise":
            P.prove("empty_tuple_is_ValueError", z3.And(zint(seq.len) == 0, P.resolve_cls(res) == "ValueError"))
        else:
            P.prove("non_empty_tuple_accepted", zint(seq.len) >= 1)
            P.prove("same_length", zint(P.seq_len(res)) == zint(seq.len))
            i = z3.Int("i_part")
            P.assume(z3.And(i >= 0, i < zint(seq.len)))
            P.prove("same_parts", zstr(P.seq_at(res, i)) == f(i))
    P.cover("_get_parts." + kind)


def rec_hook(P, name, log):
    """Modular recursion: the recursive call on a child is recorded and answered by an uninterpreted result."""
    def h(P_, a, k):
        log.append((name, a))
        r = Opaque("rec_result", z3.Int(P_._fresh_name("rec_result")))
        return r
    return h


# --------------------------------------------------------------------------- get_member / __getitem__
def _getter(fn, members_attr, recursive_spec):
    def driver(P):
        H = Heap(P)
        o = H.obj("o", ["Module", "Class"])
        if members_attr == "all_members":
            # all_members is consumer API: own members plus inherited ones; here: an abstract map
            am, _ = H.smap("o_all_members", lambda k: H.obj(f"o.am[{zstr(k).sexpr()[:20]}]"))
            P.attr_hooks[("ObjectAliasMixin", "all_members")] = lambda P_, obj: am if obj is o else (_ for _ in ()).throw(Unsupported("all_members of other"))
            src = am
        else:
            src = P.getattr(o, "members")
        parts, f = key_seq(P, "parts")
        P.witness["parts"] = parts
        log = []
        P.opaque_hooks[recursive_spec] = rec_hook(P, "rec", log)
        if members_attr == "all_members":
            # the recursion `child[parts[1:]]` goes through __getitem__ of the child
            P.attr_hooks[("GetMembersMixin", "__getitem__")] = lambda P_, obj, k: rec_hook(P_, "rec", log)(P_, [obj, k], {})
        kind, res = outcome(P, lambda: call(P, fn, o, parts))
        n = zint(parts.len)
        p0 = f(0)
        present = models.map_has(P, src, SStr(p0))
        if kind == "raise":
            P.prove("only_KeyError_for_missing_first_part", z3.And(z3.Not(present), P.resolve_cls(res) == "KeyError"), exc=P.resolve_cls(res))
            return
        P.prove("first_part_present", present)
        child = models.map_get(P, src, SStr(p0))
        if P.branch(n == 1):
            P.prove("single_part_returns_member", P.identical(res, child))
            P.prove("no_recursion_for_single_part", len(log) == 0)
        else:
            P.prove("recursed_once", len(log) == 1)
            if len(log) == 1:
                _, a = log[0]
                P.prove("recursion_on_the_child", P.identical(a[0], child))
                sub = P.to_seq(a[1])
                P.prove("recursion_on_the_rest.len", zint(P.seq_len(sub)) == n - 1)
                j = z3.Int("j_rest")
                P.assume(z3.And(j >= 0, j < n - 1))
                P.prove("recursion_on_the_rest.items", zstr(P.seq_at(sub, j)) == f(j + 1))
                P.prove("variant_decreases", zint(P.seq_len(sub)) < n)
                P.prove("returns_the_recursive_result", res is log[0][1] or isinstance(res, Opaque))
        P.cover(fn + "." + kind)
    return driver


contract("C16", "get_member", [MX + "GetMembersMixin.get_member"], floor=6, replay="replay_tree_ops")(
    _getter(MX + "GetMembersMixin.get_member", "members", MX + "GetMembersMixin.get_member"))
contract("C16", "__getitem__", [MX + "GetMembersMixin.__getitem__"], floor=5, replay="replay_tree_ops")(
    _getter(MX + "GetMembersMixin.__getitem__", "all_members", MX + "GetMembersMixin.__getitem__"))


# --------------------------------------------------------------------------- del_member / __delitem__
@contract("C16", "del_member", [MX + "DelMembersMixin.del_member"], floor=5, replay="replay_tree_ops")
def c_del_member(P):
    H = Heap(P)
    o = H.obj("o", ["Module", "Class"])
    members = P.getattr(o, "members")
    parts, f = key_seq(P, "parts")
    P.witness["parts"] = parts
    log = []
    P.opaque_hooks[MX + "DelMembersMixin.del_member"] = rec_hook(P, "rec", log)
    n = zint(parts.len)
    p0 = SStr(f(0))
    present0 = models.map_has(P, members, p0)
    child0 = models.map_get(P, members, p0) if P.branch(present0) else None
    kind, res = outcome(P, lambda: call(P, MX + "DelMembersMixin.del_member", o, parts))
    ok = other_key(P)
    P.assume(ok.z != p0.z)
    if kind == "raise":
        P.prove("only_KeyError_for_missing", z3.And(z3.Not(present0), P.resolve_cls(res) == "KeyError"), exc=P.resolve_cls(res))
        return
    P.prove("present_before", present0)
    if P.branch(n == 1):
        P.prove("deleted_member_is_gone", z3.Not(models.map_has(P, members, p0)))
        P.prove("no_recursion", len(log) == 0)
    else:
        P.prove("recursed_once_on_child", len(log) == 1 and log[0][1][0] is child0)
        P.prove("first_part_kept", models.map_has(P, members, p0))
        if len(log) == 1:
            sub = P.to_seq(log[0][1][1])
            P.prove("rest.len", zint(P.seq_len(sub)) == n - 1)
            j = z3.Int("j_rest")
            P.assume(z3.And(j >= 0, j < n - 1))
            P.prove("rest.items", zstr(P.seq_at(sub, j)) == f(j + 1))
    # frame: every other key untouched
    P.prove("frame.other_keys_presence", models.map_has(P, members, ok) == z3.simplify(zbool(members.has0(ok))))
    P.cover("del_member")


@contract("C16", "__delitem__", [MX + "DelMembersMixin.__delitem__"], floor=4, replay="replay_tree_ops")
def c_delitem(P):
    H = Heap(P)
    o = H.obj("o", ["Module", "Class"])
    members = P.getattr(o, "members")
    inh, inh_has = H.smap("o_inherited", lambda k: H.obj(f"o.inh[{zstr(k).sexpr()[:20]}]", ["Alias"]))
    fresh_maps = []

    def inherited(P_, obj):
        # a freshly computed dict on each access (the real property builds a new dict when not cached)
        m, _ = H.smap(f"o_inherited_copy{len(fresh_maps)}", lambda k: inh.get0(k))
        m.has0 = inh.has0
        fresh_maps.append(m)
        return m
    P.attr_hooks[("Object", "inherited_members")] = inherited

    def all_members(P_, obj):
        # {**inherited_members, **members}: a fresh dict
        m = SMap(lambda k: z3.Or(zbool(models.map_has(P_, members, k)), zbool(inh.has0(k))),
                 lambda k: P_.ite(mk_bool(models.map_has(P_, members, k)), models.map_get(P_, members, k), inh.get0(k)), tag="all_members_copy")
        fresh_maps.append(m)
        return m
    P.attr_hooks[("ObjectAliasMixin", "all_members")] = all_members
    name = P.fresh_str("name")
    P.witness["name"] = name
    P.assume(z3.Not(z3.Contains(name.z, z3.StringVal("."))))
    P.assume(z3.Length(name.z) > 0)
    own = models.map_has(P, members, name)
    inherited_ = inh_has(name.z)
    P.witness.update(own=SBool(own), inherited=SBool(inherited_))
    kind, res = outcome(P, lambda: call(P, MX + "DelMembersMixin.__delitem__", o, name))
    if kind == "raise":
        P.prove("KeyError_only_when_absent_everywhere", z3.And(z3.Not(own), z3.Not(inherited_), P.resolve_cls(res) == "KeyError"), exc=P.resolve_cls(res))
        return
    P.prove("deleted_member_is_gone", z3.Not(models.map_has(P, members, name)))
    P.prove("was_reachable", z3.Or(own, inherited_))
    ok = other_key(P)
    P.assume(ok.z != name.z)
    P.prove("frame.other_keys_presence", models.map_has(P, members, ok) == z3.simplify(zbool(members.has0(ok))))
    P.cover("__delitem__")


# --------------------------------------------------------------------------- __setitem__ / set_member (single part)
def _setter(fn, with_retarget):
    def driver(P):
        H = Heap(P)
        is_coll = z3.Bool("container_is_collection")
        P.witness["container_is_collection"] = SBool(is_coll)
        if P.branch(is_coll):
            o = H.collection("o")
        else:
            o = H.obj("o", ["Module", "Class"])
        members = P.getattr(o, "members")
        value = H.obj("value", ["Module"] if isinstance(o.cls, str) and o.cls == "ModulesCollection" else ALL)
        name = P.fresh_str("name")
        P.assume(z3.Not(z3.Contains(name.z, z3.StringVal("."))))
        P.assume(z3.Length(name.z) > 0)
        P.witness["name"] = name
        had = models.map_has(P, members, name)
        P.witness["had_member"] = SBool(had)
        old_member = models.map_get(P, members, name) if P.branch(had) else None
        retargeted, cyclic_for = [], []
        watched = None
        if with_retarget:
            def merge(P_, a, k):
                if P_.branch(z3.Bool("merge_raises")):
                    raise PyExc(P_.mk_exc("ValueError", "no stubs"))
                return a[0] if P_.branch(z3.Bool("merge_returns_member")) else a[1]
            P.opaque_hooks["_griffe.merger:merge_stubs"] = merge
            P.opaque_hooks["_griffe.mixins:merge_stubs"] = merge
            # `alias.target = value` is taken by the contract of Alias.target.setter (proved below)
            def target_setter(P_, a, k):
                al, val = a
                cyc = z3.Or(zbool(P_.identical(val, al)), H.path_of(val) == H.path_of(al)) if isinstance(val, SObj) and val.ident is not None else False
                if P_.branch(cyc):
                    cyclic_for.append(al)
                    raise PyExc(P_.mk_exc("CyclicAliasError", ["x"]))
                retargeted.append((al, val))
                al.fields["_target"] = val
                return None
            P.opaque_hooks[MD + "Alias.target@setter"] = target_setter
            i0 = z3.Int("alias_index")
            P.loop_specs[(fn, 0)] = dict(mode="generic", index=i0)
            watched = None
            if old_member is not None:
                om = P.choose(old_member) if isinstance(old_member, SUnion) else old_member
                if P.resolve_cls(om) != "Alias":
                    als = P.getattr(om, "aliases")
                    if P.branch(z3.And(i0 >= 0, i0 < zint(als.keys_seq.len))):
                        watched = als.get0(als.keys_seq.at(i0))
            # namespace-ness walks up the parent chain: taken as an uninterpreted fact per module
            NSP = z3.Function("IS_NAMESPACE", IntS, BoolS)
            P.attr_hooks[("Module", "is_namespace_package")] = lambda P_, obj: SBool(NSP(obj.ident))
            P.attr_hooks[("Module", "is_namespace_subpackage")] = lambda P_, obj: SBool(NSP(obj.ident))
            P.attr_hooks[("Object", "is_namespace_package")] = lambda P_, obj: SBool(NSP(obj.ident))
            P.attr_hooks[("Object", "is_namespace_subpackage")] = lambda P_, obj: SBool(NSP(obj.ident))
        kind, res = outcome(P, lambda: call(P, fn, o, name, value))
        if kind == "raise":
            P.prove("does_not_raise", False, exc=P.resolve_cls(res))
            return
        now = models.map_get(P, members, name)
        P.prove("key_present_after", models.map_has(P, members, name))
        if with_retarget:
            stored_is_value_or_merge = z3.Or(zbool(P.identical(now, value)), zbool(P.identical(now, old_member)) if old_member is not None else False)
            P.prove("member_is_value_or_merged_module", stored_is_value_or_merge)
        else:
            P.prove("member_is_value", P.identical(now, value))
        now = P.choose(now) if isinstance(now, SUnion) else now
        if isinstance(o.cls, str) and o.cls == "ModulesCollection":
            P.prove("collection_link_set", P.identical(P.getattr(now, "_modules_collection"), o))
        else:
            par = now.fields.get("_parent", now.fields.get("parent"))
            P.prove("parent_is_container", P.identical(par, o) if par is not None else False)
        ok = other_key(P)
        P.assume(ok.z != name.z)
        P.prove("frame.other_keys_presence", models.map_has(P, members, ok) == z3.simplify(zbool(members.has0(ok))))
        if with_retarget and watched is not None:
            # an arbitrary alias listed in old_member.aliases follows the replacement unless that would make it target itself
            done = [v for (a_, v) in retargeted if a_ is watched]
            skipped = any(a_ is watched for a_ in cyclic_for)
            P.prove("alias_follows_replacement", skipped or (len(done) == 1 and done[0] is now), retargeted=len(done))
        P.cover(fn)
    return driver


ALL = ["Module", "Class", "Function", "Attribute", "Alias"]
contract("C16", "__setitem__", [MX + "SetMembersMixin.__setitem__"], floor=5, replay="replay_tree_ops")(_setter(MX + "SetMembersMixin.__setitem__", False))
contract("C16", "set_member", [MX + "SetMembersMixin.set_member"], floor=5, replay="replay_tree_ops", shard_bits=3)(_setter(MX + "SetMembersMixin.set_member", True))


@contract("C16", "set_member.longer_keys_stay_in_the_tree_building_api", [MX + "SetMembersMixin.set_member"], floor=3, replay="replay_tree_ops")
def c_set_member_multi(P):
    """A key of two or more parts (dotted string or tuple) hands the value over to the member named by the first part, through that member's set_member with
    the remaining parts -- the tree-building operation, which re-targets aliases and merges stubs -- and not through item assignment, which does neither."""
    H = Heap(P)
    o = H.obj("o", ["Module", "Class"])
    key, partf = key_seq(P, "key", minlen=2)
    value = H.obj("value", ALL)
    first = H.obj("first_member", ["Module", "Class"])
    present = z3.Bool("first_part_names_a_member")
    calls = []

    def getitem(P_, a, k):
        return first
    members = SMap(lambda k: z3.And(present, zstr(k) == partf(0)), lambda k: first, tag="members")
    o.fields["members"] = members
    P.opaque_hooks[MX + "SetMembersMixin.set_member"] = lambda P_, a, k: calls.append(("set_member", a))
    P.opaque_hooks[MX + "SetMembersMixin.__setitem__"] = lambda P_, a, k: calls.append(("__setitem__", a))
    clo = fn_closure(P, MX + "SetMembersMixin.set_member")
    clo._nohook = True
    kind, res = outcome(P, lambda: P.call_closure(clo, [o, key, value], {}))
    if kind == "raise":
        P.prove("only_KeyError_when_the_first_part_names_no_member", z3.And(z3.Not(present), P.resolve_cls(res) == "KeyError"), exc=P.resolve_cls(res))
        P.cover("set_member.multi.raise")
        return
    P.prove("exactly_one_delegation", len(calls) == 1, calls=str([c[0] for c in calls]))
    if len(calls) == 1:
        op, a = calls[0]
        P.prove("delegates_to_set_member_not_to_item_assignment", op == "set_member")
        P.prove("to_the_member_named_by_the_first_part", a[0] is first)
        P.prove("with_the_same_value", a[2] is value)
        rest = P.to_seq(a[1])
        P.prove("with_the_remaining_parts", zint(P.seq_len(rest)) == zint(P.seq_len(key)) - 1)
        j = P.fresh_int("rest_index")
        if P.branch(z3.And(j.z >= 0, j.z < zint(P.seq_len(rest)))):
            P.prove("with_the_remaining_parts.in_order", zstr(P.seq_at(rest, j)) == partf(j.z + 1))
    P.cover("set_member.multi.ok")


# --------------------------------------------------------------------------- Alias links
@contract("C16", "alias.target_setter", [MD + "Alias.target@setter"], floor=4, replay="replay_alias_links")
def c_target_setter(P):
    H = Heap(P)
    al = H.obj("alias", ["Alias"])
    same = z3.Bool("value_is_self")
    P.witness["value_is_self"] = SBool(same)
    value = al if P.branch(same) else H.obj("value")
    same_path = H.path_of(value) == H.path_of(al)
    P.witness["same_path"] = SBool(same_path)
    old_target = P.getattr(al, "_target")
    clo = fn_closure(P, MD + "Alias.target@setter")
    clo._nohook = True
    kind, res = outcome(P, lambda: P.call_closure(clo, [al, value], {}))
    if kind == "raise":
        cname = P.resolve_cls(res)
        if al.fields["_target"] is old_target:
            P.prove("raises_only_CyclicAliasError_on_self_target", z3.And(z3.Or(same, same_path), cname == "CyclicAliasError"), exc=cname)
            P.cover("target_setter.refused")
            return
        # the new target was stored and registering the alias failed: possible only when the value is itself an alias whose own chain is broken
        # (an Alias has no table of aliases, the registration goes to its final target); the guard against self-targeting was passed
        P.prove("never_targets_itself", z3.And(z3.Not(same), z3.Not(same_path)))
        P.prove("registration_fails_only_for_a_broken_alias_chain", P.resolve_cls(value) == "Alias" and cname in ("AliasResolutionError", "CyclicAliasError"), exc=cname)
        P.cover("target_setter.broken_chain")
        return
    P.prove("never_targets_itself", z3.And(z3.Not(same), z3.Not(same_path)))
    P.prove("target_stored", P.identical(al.fields["_target"], value))
    P.prove("target_path_updated", zstr(al.fields["target_path"]) == H.path_of(value))
    par = P.getattr(al, "_parent")
    has_parent = z3.Not(zbool(P.identical(par, None)))
    if P.branch(has_parent):
        als = P.getattr(value, "aliases")
        key = SStr(H.path_of(al))
        listed = z3.And(zbool(models.map_has(P, als, key)), zbool(P.identical(models.map_get(P, als, key), al)) if P.branch(models.map_has(P, als, key)) else False)
        P.prove("listed_among_target_aliases_under_own_path", listed)
    P.cover("target_setter")


@contract("C16", "alias.parent_setter", [MD + "Alias.parent@setter", MD + "Alias._update_target_aliases"], floor=3, replay="replay_alias_links")
def c_parent_setter(P):
    H = Heap(P)
    al = H.obj("alias", ["Alias"])
    target = H.obj("target")
    resolved = z3.Bool("alias_resolved")
    P.witness["alias_resolved"] = SBool(resolved)
    al.fields["_target"] = target if P.branch(resolved) else None
    same_parent = z3.Bool("new_parent_is_current_parent")
    P.witness["new_parent_is_current_parent"] = SBool(same_parent)
    cur = H.obj("cur_parent", ["Module", "Class"])
    al.fields["_parent"] = cur
    newp = cur if P.branch(same_parent) else H.obj("new_parent", ["Module", "Class"])
    clo = fn_closure(P, MD + "Alias.parent@setter")
    clo._nohook = True
    # the write to the parent link changes the alias's path: bump the heap version when _parent is written
    H.bump()
    kind, res = outcome(P, lambda: P.call_closure(clo, [al, newp], {}))
    P.prove("does_not_raise", kind == "ok", exc=str(res))
    if kind != "ok":
        return
    P.prove("parent_stored", P.identical(al.fields["_parent"], newp))
    if al.fields["_target"] is not None:
        k2, als = outcome(P, lambda: P.getattr(target, "aliases"))
        if k2 != "ok":
            # the target is itself an alias whose chain is broken: there is no table to be listed in
            P.prove("no_table_only_for_a_broken_alias_chain", P.resolve_cls(target) == "Alias" and P.resolve_cls(als) in ("AliasResolutionError", "CyclicAliasError"))
            P.cover("parent_setter.broken_chain")
            return
        key = SStr(H.path_of(al))   # path in the new heap version (current path)
        present = models.map_has(P, als, key)
        P.prove("listed_under_current_path", present)
        if P.branch(present):
            P.prove("listed_entry_is_the_alias", P.identical(models.map_get(P, als, key), al))
    P.cover("parent_setter")


@contract("C16", "object.path", [MD + "Object.canonical_path", MD + "Object.path", MD + "Alias.path"], floor=3, replay="replay_alias_links")
def c_path(P):
    H = Heap(P, hook_path=False)
    # parent's path is taken by contract (uninterpreted), own path is computed by the real code
    PP = z3.Function("PARENT_PATH", IntS, StrS)
    hooked = {"on": True}

    def parent_path(P_, obj):
        return SStr(PP(obj.ident))
    is_alias = z3.Bool("o_is_alias")
    if P.branch(is_alias):
        o = H.obj("o", ["Alias"])
        par = H.obj("p", ["Module", "Class"])
        o.fields["_parent"] = par
        P.attr_hooks[("Object", "path")] = parent_path
        r = P.getattr(o, "path")
        P.prove("alias_path_is_parent_path_dot_name", zstr(r) == z3.Concat(PP(par.ident), z3.StringVal("."), zstr(o.lazy["name"](P, o) if "name" not in o.fields else o.fields["name"])))
    else:
        o = H.obj("o", OBJ)
        par = H.obj("p", ["Module", "Class"])
        none = z3.Bool("o_parent_none")
        o.fields["parent"] = None if P.branch(none) else par
        # only the parent's `path` is hooked
        real_path = P.find_class_member("Object", "path")[1]
        P.attr_hooks[("Object", "path")] = lambda P_, obj: parent_path(P_, obj) if obj is par else P_.call_closure(real_path, [obj], {})
        r = P.getattr(o, "path")
        name = zstr(P.getattr(o, "name"))
        exp = name if o.fields["parent"] is None else z3.Concat(PP(par.ident), z3.StringVal("."), name)
        P.prove("path_is_parent_path_dot_name", zstr(r) == exp)
        c = P.getattr(o, "canonical_path")
        P.prove("path_equals_canonical_path_for_objects", zstr(c) == zstr(r))
    P.cover("path")


OBJ = ["Module", "Class", "Function", "Attribute"]


# --------------------------------------------------------------------------- bounded tier: operation histories on the real API
def bounded_checks(tier, seed):
    import json, os, subprocess, time
    from concurrent.futures import ThreadPoolExecutor
    from pyvc.run import VERIF, VENV_PY, REPO_SRC

    def run(*args):
        r = subprocess.run([VENV_PY, "-m", "replay.C16", *map(str, args)], capture_output=True, text=True, cwd=str(VERIF), env=dict(os.environ, PYTHONPATH=str(REPO_SRC)),
                           timeout=3600)
        if r.returncode != 0:
            raise RuntimeError("bounded C16 sweep crashed: " + r.stderr[-1500:])
        return json.loads(r.stdout.strip().splitlines()[-1])
    out = []
    t0 = time.time()
    d = run()
    out.append({"check": "history_sweep", "tool": "native scenario sweep with the global tree invariant evaluated after each history",
                "bound": f"{d['scenarios']} histories of <= 7 operations over <= 6 objects (every operation and key form)", "cases": d["scenarios"],
                "failing": len(d["problems"]), "wall_s": round(time.time() - t0, 1), "violations": d["problems"]})
    # the statement's own quantifier: exhaustive for short sequences, random for long ones, a reference dictionary after every step
    length, shards = (3, 4) if tier == "quick" else (4, 16)
    t0 = time.time()
    with ThreadPoolExecutor(shards) as ex:
        parts = list(ex.map(lambda sh: run("exhaustive", length, 1500, sh, shards), range(shards)))
    probs = [p for d in parts for p in d["problems"]]
    out.append({"check": "histories.exhaustive", "tool": "native: every operation sequence on the real API against a reference dictionary, invariants after every step",
                "bound": f"all sequences of <= {length} operations over module m, names a/b, kinds Class/Function/Attribute, 4 key forms, deletions, aliases by object and by path, "
                         "self-target attempts" + ("; CUT SHORT by the time budget" if any(d["cut_short"] for d in parts) else ""),
                "cases": sum(d["sequences"] for d in parts), "failing": len(probs), "wall_s": round(time.time() - t0, 1), "violations": probs})
    n_seeds, n_hist, budget = (4, 4000, 20) if tier == "quick" else (16, 200000, 240)
    t0 = time.time()
    with ThreadPoolExecutor(n_seeds) as ex:
        parts = list(ex.map(lambda i: run("random", seed * 1000 + i, n_hist, 14, budget), range(n_seeds)))
    probs, seen = [], set()
    for d in parts:
        for p in d["problems"]:
            if p["signature"] not in seen or not p["signature"].startswith("stale"):
                probs.append(p)
                seen.add(p["signature"])
    out.append({"check": "histories.random", "tool": "native: random operation sequences on the real API against a reference dictionary, invariants after every step",
                "bound": f"{n_seeds} seeds x <= {n_hist} histories of <= 14 operations over names a/b/c incl. sub-modules and classes (time box {budget} s per seed)",
                "cases": sum(d["steps"] for d in parts), "failing": len(probs), "wall_s": round(time.time() - t0, 1), "violations": probs})
    return out
